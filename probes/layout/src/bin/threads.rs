//! Threads probe (C19).
//!
//! `threads run --seed S --threads 2,4,8,16 --rounds R --ops K`
//!     For every N in the list and every round: N OS threads run N independent seeded programs of
//!     Cc / Weak / collect_cycles / config operations concurrently (random yields, common
//!     barriers), each recording its own observable trace after every operation; afterwards each
//!     program is re-run ALONE on a fresh thread and the two traces must be identical (this is the
//!     statement of `Threads.C19_trace` / `C19_independent`, checked on the implementation).
//!     One line per program:  thr n=<N> round=<r> prog=<i> ops=<k> hash=<h> alone=<h> ok|BAD ...
//!
//! `threads teardown <order> <content>`
//!     One thread exits while a user thread-local still holds Ccs. `order` = `user_first` (the
//!     user thread-local is destroyed BEFORE the collector's POSSIBLE_CYCLES) or `pc_first`
//!     (AFTER it). Run in a child process so that a crash is attributed to the scenario.
//!     One line:  td order=<o> content=<c> pc_alive_at_user_dtor=<bool> ... notes=<..> ok|BAD ...
//!     `--strict-model` turns the model-correspondence notes (stale marks / links on LEAKED objects
//!     after the buffer's destructor) into failures.

use std::cell::{Cell, RefCell};
use std::hash::Hasher;
use std::io::Write;
use std::num::NonZeroUsize;
use std::sync::atomic::{AtomicU32, AtomicUsize, Ordering};
use std::sync::{Arc, Barrier};

use layout_probes as lp;
use lp::Rng;
use rust_cc::config::config;
use rust_cc::state::{allocated_bytes, buffered_objects_count, executions_count};
use rust_cc::weak::Weak;
use rust_cc::{collect_cycles, verif, Cc, Context, Finalize, Trace};

#[global_allocator]
static ALLOC: lp::LogAlloc = lp::LogAlloc;

const MAGIC: u64 = 0x00C0_FFEE_1234_5678;
const DEAD: u64 = 0xDEAD_DEAD_DEAD_DEAD;

static CANARY_BAD: AtomicUsize = AtomicUsize::new(0);

thread_local! {
    // const-initialised, no destructor
    static DROPS: Cell<u64> = const { Cell::new(0) };
    static FINALIZED: Cell<u64> = const { Cell::new(0) };
}

// ---------------------------------------------------------------------------------------------
// Part 1: independent programs

struct Node {
    id: u32,
    canary: Cell<u64>,
    kids: RefCell<Vec<Cc<Node>>>,
    weak: RefCell<Option<Weak<Node>>>,
}

impl Node {
    fn new(id: u32) -> Node {
        Node { id, canary: Cell::new(MAGIC ^ id as u64), kids: RefCell::new(Vec::new()), weak: RefCell::new(None) }
    }
}

unsafe impl Trace for Node {
    fn trace(&self, ctx: &mut Context<'_>) {
        self.kids.trace(ctx);
    }
}

impl Finalize for Node {
    fn finalize(&self) {
        FINALIZED.with(|f| f.set(f.get() + 1));
    }
}

impl Drop for Node {
    fn drop(&mut self) {
        if self.canary.get() != MAGIC ^ self.id as u64 {
            CANARY_BAD.fetch_add(1, Ordering::SeqCst);
        }
        self.canary.set(DEAD);
        DROPS.with(|d| d.set(d.get() + 1));
    }
}

#[derive(Clone, Debug)]
enum Op {
    New,
    Link(usize, usize),
    DropRoot(usize),
    CloneRoot(usize),
    Collect,
    SetAuto(bool),
    SetBuffered(usize),
    SetPercent(u8),
    Downgrade(usize),
    StoreWeak(usize, usize),
    Upgrade(usize),
    DropWeak(usize),
    MarkAlive(usize),
    TryUnwrap(usize),
    ClearKids(usize),
    Yield(u8),
    Barrier,
}

const BARRIERS_PER_PROGRAM: usize = 4;

/// The program depends on the seed only (never on anything observed at run time).
fn gen_program(seed: u64, len: usize) -> Vec<Op> {
    let mut r = Rng::new(seed);
    let mut p = Vec::with_capacity(len + 8);
    // every program starts by configuring ITS collector its own way
    p.push(Op::SetAuto(r.chance(1, 2)));
    p.push(Op::SetBuffered(if r.chance(1, 3) { 0 } else { 1 + r.below(12) }));
    p.push(Op::SetPercent([0u8, 10, 25, 50, 100][r.below(5)]));
    let barrier_every = (len / (BARRIERS_PER_PROGRAM + 1)).max(1);
    let mut barriers = 0;
    for i in 0..len {
        if i > 0 && i % barrier_every == 0 && barriers < BARRIERS_PER_PROGRAM {
            p.push(Op::Barrier);
            barriers += 1;
        }
        let a = r.below(1 << 16);
        let b = r.below(1 << 16);
        let op = match r.below(100) {
            0..=21 => Op::New,
            22..=37 => Op::Link(a, b),
            38..=49 => Op::DropRoot(a),
            50..=55 => Op::CloneRoot(a),
            56..=61 => Op::Collect,
            62..=63 => Op::SetAuto(r.chance(1, 2)),
            64..=65 => Op::SetBuffered(r.below(10)),
            66 => Op::SetPercent([0u8, 10, 25, 50, 100][r.below(5)]),
            67..=71 => Op::Downgrade(a),
            72..=74 => Op::StoreWeak(a, b),
            75..=79 => Op::Upgrade(a),
            80..=82 => Op::DropWeak(a),
            83..=85 => Op::MarkAlive(a),
            86..=89 => Op::TryUnwrap(a),
            90..=92 => Op::ClearKids(a),
            _ => Op::Yield(1 + r.below(4) as u8),
        };
        p.push(op);
    }
    while barriers < BARRIERS_PER_PROGRAM {
        p.push(Op::Barrier);
        barriers += 1;
    }
    p
}

const OBS: usize = 12;
type Obs = [u64; OBS];

fn observe(roots: usize, weaks: usize, result: u64) -> Obs {
    let (auto, thr, pct) = config(|c| {
        (
            c.auto_collect() as u64,
            c.buffered_objects_threshold().map_or(0, |n| n.get() as u64),
            c.adjustment_percent().to_bits(),
        )
    })
    .unwrap_or((u64::MAX, u64::MAX, u64::MAX));
    [
        allocated_bytes().map_or(u64::MAX, |n| n as u64),
        executions_count().map_or(u64::MAX, |n| n as u64),
        buffered_objects_count().map_or(u64::MAX, |n| n as u64),
        DROPS.with(|d| d.get()),
        FINALIZED.with(|d| d.get()),
        auto,
        thr,
        pct,
        verif::bytes_threshold().map_or(u64::MAX, |n| n as u64),
        roots as u64,
        weaks as u64,
        result,
    ]
}

struct Outcome {
    trace: Vec<Obs>,
    created: u64,
    problems: Vec<String>,
}

fn run_program(prog: &[Op], barrier: &Barrier) -> Outcome {
    let mut roots: Vec<Cc<Node>> = Vec::new();
    let mut weaks: Vec<Weak<Node>> = Vec::new();
    let mut trace: Vec<Obs> = Vec::with_capacity(prog.len() + 2);
    let mut next_id = 0u32;
    let mut problems = Vec::new();
    // the very first observation: a pristine collector, whatever the other threads did so far
    trace.push(observe(0, 0, 0));
    for op in prog {
        let mut result = 0u64;
        match op {
            Op::New => {
                roots.push(Cc::new(Node::new(next_id)));
                next_id += 1;
            },
            Op::Link(a, b) => {
                if !roots.is_empty() {
                    let (a, b) = (a % roots.len(), b % roots.len());
                    let k = roots[b].clone();
                    roots[a].kids.borrow_mut().push(k);
                }
            },
            Op::DropRoot(a) => {
                if !roots.is_empty() {
                    let a = a % roots.len();
                    drop(roots.swap_remove(a));
                }
            },
            Op::CloneRoot(a) => {
                if !roots.is_empty() {
                    let c = roots[a % roots.len()].clone();
                    roots.push(c);
                }
            },
            Op::Collect => collect_cycles(),
            Op::SetAuto(b) => {
                config(|c| c.set_auto_collect(*b)).unwrap();
            },
            Op::SetBuffered(n) => {
                config(|c| c.set_buffered_objects_threshold(NonZeroUsize::new(*n))).unwrap();
            },
            Op::SetPercent(p) => {
                config(|c| c.set_adjustment_percent(*p as f64 / 100.0)).unwrap();
            },
            Op::Downgrade(a) => {
                if !roots.is_empty() {
                    weaks.push(roots[a % roots.len()].downgrade());
                }
            },
            Op::StoreWeak(a, b) => {
                if !roots.is_empty() {
                    let (a, b) = (a % roots.len(), b % roots.len());
                    let w = roots[b].downgrade();
                    *roots[a].weak.borrow_mut() = Some(w);
                }
            },
            Op::Upgrade(a) => {
                if !weaks.is_empty() {
                    let w = &weaks[a % weaks.len()];
                    result = w.strong_count() as u64 * 4 + w.weak_count() as u64 * 1024;
                    if let Some(cc) = w.upgrade() {
                        if cc.canary.get() != MAGIC ^ cc.id as u64 {
                            problems.push(format!("upgraded node {} has a bad canary", cc.id));
                        }
                        result += 1;
                        roots.push(cc);
                    }
                }
            },
            Op::DropWeak(a) => {
                if !weaks.is_empty() {
                    let a = a % weaks.len();
                    drop(weaks.swap_remove(a));
                }
            },
            Op::MarkAlive(a) => {
                if !roots.is_empty() {
                    roots[a % roots.len()].mark_alive();
                }
            },
            Op::TryUnwrap(a) => {
                if !roots.is_empty() {
                    let a = a % roots.len();
                    let cc = roots.swap_remove(a);
                    match cc.try_unwrap() {
                        Ok(node) => {
                            result = 1;
                            drop(node);
                        },
                        Err(cc) => roots.push(cc),
                    }
                }
            },
            Op::ClearKids(a) => {
                if !roots.is_empty() {
                    let kids = std::mem::take(&mut *roots[a % roots.len()].kids.borrow_mut());
                    drop(kids);
                }
            },
            Op::Yield(n) => {
                for _ in 0..*n {
                    std::thread::yield_now();
                }
            },
            Op::Barrier => {
                barrier.wait();
            },
        }
        for r in roots.iter().rev().take(2) {
            if r.canary.get() != MAGIC ^ r.id as u64 {
                problems.push(format!("live node {} has a bad canary", r.id));
            }
        }
        trace.push(observe(roots.len(), weaks.len(), result));
    }
    drop(weaks);
    drop(roots);
    collect_cycles();
    collect_cycles();
    let last = observe(0, 0, 0);
    trace.push(last);
    if last[0] != 0 {
        problems.push(format!("allocated_bytes = {} after everything was released", last[0]));
    }
    if last[2] != 0 {
        problems.push(format!("buffered_objects_count = {} after everything was released", last[2]));
    }
    if last[3] != next_id as u64 {
        problems.push(format!("{} nodes created, {} dropped", next_id, last[3]));
    }
    Outcome { trace, created: next_id as u64, problems }
}

fn trace_hash(t: &[Obs]) -> u64 {
    let mut h = lp::Fnv::new();
    for o in t {
        for v in o {
            h.write_u64(*v);
        }
    }
    h.finish()
}

fn cmd_run(args: &[String]) -> i32 {
    let seed = lp::parse_seed(args);
    let mut threads: Vec<usize> = vec![2, 4, 8, 16];
    let mut rounds = 2usize;
    let mut ops = 300usize;
    let mut i = 0;
    while i + 1 < args.len() {
        match args[i].as_str() {
            "--threads" => threads = args[i + 1].split(',').filter_map(|s| s.parse().ok()).collect(),
            "--rounds" => rounds = args[i + 1].parse().unwrap_or(rounds),
            "--ops" => ops = args[i + 1].parse().unwrap_or(ops),
            _ => {},
        }
        i += 1;
    }
    let stdout = std::io::stdout();
    let mut out = std::io::BufWriter::new(stdout.lock());
    let mut bad = 0usize;
    let mut programs = 0usize;

    // The main thread has a collector too: configure it unusually and keep objects (some buffered)
    // alive across the whole run; nothing of this may be visible to, or changed by, the workers.
    config(|c| {
        c.set_auto_collect(false);
        c.set_buffered_objects_threshold(NonZeroUsize::new(3));
        c.set_adjustment_percent(0.75);
    })
    .unwrap();
    let main_objs: Vec<Cc<Node>> = (0..5).map(|i| Cc::new(Node::new(1000 + i))).collect();
    drop(main_objs[0].clone());
    drop(main_objs[1].clone());
    let main_before = observe(main_objs.len(), 0, 0);

    for &n in &threads {
        for round in 0..rounds {
            let progs: Vec<Arc<Vec<Op>>> = (0..n)
                .map(|i| {
                    let s = seed
                        .wrapping_mul(1_000_003)
                        .wrapping_add((n as u64) << 32)
                        .wrapping_add((round as u64) << 16)
                        .wrapping_add(i as u64);
                    Arc::new(gen_program(s, ops))
                })
                .collect();
            // --- interleaved
            let barrier = Arc::new(Barrier::new(n));
            let start = Arc::new(Barrier::new(n));
            let handles: Vec<_> = progs
                .iter()
                .enumerate()
                .map(|(i, p)| {
                    let (p, barrier, start) = (p.clone(), barrier.clone(), start.clone());
                    std::thread::Builder::new()
                        .name(format!("w{n}-{round}-{i}"))
                        .spawn(move || {
                            start.wait();
                            for _ in 0..(i % 5) {
                                std::thread::yield_now();
                            }
                            run_program(&p, &barrier)
                        })
                        .unwrap()
                })
                .collect();
            let together: Vec<Result<Outcome, String>> =
                handles.into_iter().map(|h| h.join().map_err(|_| "worker thread panicked".to_string())).collect();
            // --- each program alone on a fresh thread
            for (i, p) in progs.iter().enumerate() {
                programs += 1;
                let p2 = p.clone();
                let alone = std::thread::spawn(move || run_program(&p2, &Barrier::new(1)))
                    .join()
                    .map_err(|_| "thread panicked (alone)".to_string());
                let mut problems: Vec<String> = Vec::new();
                let mut stats = (0u64, 0u64, 0u64);
                if let Ok(t) = &together[i] {
                    if let Some(last) = t.trace.last() {
                        stats = (t.created, last[1], last[4]);
                    }
                }
                let (h1, h2, nops) = match (&together[i], &alone) {
                    (Ok(t), Ok(a)) => {
                        problems.extend(t.problems.iter().cloned());
                        problems.extend(a.problems.iter().map(|s| format!("alone: {s}")));
                        if t.created != a.created {
                            problems.push("different number of objects created".into());
                        }
                        if t.trace != a.trace {
                            let k = t.trace.iter().zip(a.trace.iter()).position(|(x, y)| x != y).unwrap_or(t.trace.len().min(a.trace.len()));
                            let op = if k == 0 { "start".to_string() } else { format!("{:?}", p.get(k - 1)) };
                            problems.push(format!(
                                "trace differs at step {} ({}): interleaved={:?} alone={:?}",
                                k,
                                op.replace(' ', ""),
                                t.trace.get(k),
                                a.trace.get(k)
                            ));
                        }
                        (trace_hash(&t.trace), trace_hash(&a.trace), t.trace.len())
                    },
                    (t, a) => {
                        if let Err(e) = t {
                            problems.push(e.clone());
                        }
                        if let Err(e) = a {
                            problems.push(e.clone());
                        }
                        (0, 0, 0)
                    },
                };
                let verdict = if problems.is_empty() {
                    "ok".to_string()
                } else {
                    bad += 1;
                    format!("BAD {}", problems.join(";").replace(' ', "_"))
                };
                writeln!(
                    out,
                    "thr n={} round={} prog={} ops={} created={} collections={} finalized={} hash={:016x} alone={:016x} {}",
                    n, round, i, nops, stats.0, stats.1, stats.2, h1, h2, verdict
                )
                .unwrap();
            }
        }
    }

    let main_after = observe(main_objs.len(), 0, 0);
    let main_ok = main_before == main_after && main_objs.iter().all(|o| o.canary.get() == MAGIC ^ o.id as u64);
    if !main_ok {
        bad += 1;
    }
    writeln!(
        out,
        "main before={:?} after={:?} {}",
        main_before,
        main_after,
        if main_ok { "ok" } else { "BAD main_thread_collector_was_affected" }
    )
    .unwrap();
    drop(main_objs);
    collect_cycles();
    let canary_bad = CANARY_BAD.load(Ordering::SeqCst);
    let alloc_errors = lp::alloc_errors();
    if canary_bad != 0 || alloc_errors != 0 {
        bad += 1;
    }
    writeln!(
        out,
        "end programs={} bad={} canary_bad={} alloc_errors={} first_alloc_error={:?} {}",
        programs,
        bad,
        canary_bad,
        alloc_errors,
        lp::first_alloc_error(),
        if bad == 0 { "ok" } else { "BAD" }
    )
    .unwrap();
    out.flush().unwrap();
    (bad != 0) as i32
}

// ---------------------------------------------------------------------------------------------
// Part 2: teardown

const MAX_NODES: usize = 64;

#[allow(clippy::declare_interior_mutable_const)]
const Z32: AtomicU32 = AtomicU32::new(0);
#[allow(clippy::declare_interior_mutable_const)]
const ZUS: AtomicUsize = AtomicUsize::new(0);
static TD_DROPS: [AtomicU32; MAX_NODES] = [Z32; MAX_NODES];
static TD_ADDR: [AtomicUsize; MAX_NODES] = [ZUS; MAX_NODES];
static TD_CREATED: AtomicUsize = AtomicUsize::new(0);
static TD_REENTER_NEW_OK: AtomicUsize = AtomicUsize::new(0);
/// Observations made by the user thread-local's destructor: 0 = not run, 1 = Err, 2 + n = Ok(n)
static TD_COUNT_BEFORE: AtomicUsize = AtomicUsize::new(0);
static TD_COUNT_AFTER: AtomicUsize = AtomicUsize::new(0);
static TD_WALK_NONE_AFTER: AtomicUsize = AtomicUsize::new(0);
static TD_STATE_OK: AtomicUsize = AtomicUsize::new(0);
static TD_USER_DTOR_RUNS: AtomicUsize = AtomicUsize::new(0);

struct TNode {
    id: usize,
    canary: Cell<u64>,
    reenter: bool,
    kids: RefCell<Vec<Cc<TNode>>>,
}

unsafe impl Trace for TNode {
    fn trace(&self, ctx: &mut Context<'_>) {
        self.kids.trace(ctx);
    }
}

impl Finalize for TNode {
    fn finalize(&self) {
        if self.reenter {
            let _ = buffered_objects_count();
        }
    }
}

impl Drop for TNode {
    fn drop(&mut self) {
        if self.canary.get() != MAGIC ^ self.id as u64 {
            CANARY_BAD.fetch_add(1, Ordering::SeqCst);
        }
        self.canary.set(DEAD);
        TD_DROPS[self.id].fetch_add(1, Ordering::SeqCst);
        if self.reenter {
            // use the collector's API from a destructor that may run during thread teardown
            collect_cycles();
            let _ = buffered_objects_count();
            let fresh = Cc::new(7u32);
            let c2 = fresh.clone();
            drop(fresh);
            if *c2 == 7 {
                TD_REENTER_NEW_OK.fetch_add(1, Ordering::SeqCst);
            }
            drop(c2);
            collect_cycles();
        }
    }
}

fn tnode(reenter: bool) -> Cc<TNode> {
    let id = TD_CREATED.fetch_add(1, Ordering::SeqCst);
    assert!(id < MAX_NODES);
    let cc = Cc::new(TNode { id, canary: Cell::new(MAGIC ^ id as u64), reenter, kids: RefCell::new(Vec::new()) });
    TD_ADDR[id].store(verif::box_addr(&cc) as usize, Ordering::SeqCst);
    cc
}

struct UserTls {
    ccs: RefCell<Vec<Cc<TNode>>>,
    weaks: RefCell<Vec<Weak<TNode>>>,
}

fn enc(r: Result<usize, rust_cc::state::StateAccessError>) -> usize {
    match r {
        Err(_) => 1,
        Ok(n) => 2 + n,
    }
}

fn dec(v: usize) -> String {
    match v {
        0 => "not_run".into(),
        1 => "Err".into(),
        n => format!("Ok({})", n - 2),
    }
}

impl Drop for UserTls {
    fn drop(&mut self) {
        TD_USER_DTOR_RUNS.fetch_add(1, Ordering::SeqCst);
        TD_COUNT_BEFORE.store(enc(buffered_objects_count()), Ordering::SeqCst);
        // STATE has no destructor: it must be accessible whatever the order
        TD_STATE_OK.store(allocated_bytes().is_ok() as usize + 1, Ordering::SeqCst);
        let weaks = std::mem::take(&mut *self.weaks.borrow_mut());
        let ccs = std::mem::take(&mut *self.ccs.borrow_mut());
        for w in &weaks {
            // upgrading and dropping again must be harmless in both orders
            if let Some(cc) = w.upgrade() {
                drop(cc);
            }
        }
        drop(ccs);
        drop(weaks);
        TD_COUNT_AFTER.store(enc(buffered_objects_count()), Ordering::SeqCst);
        TD_WALK_NONE_AFTER.store(verif::buffer_walk(1 << 20).is_none() as usize + 1, Ordering::SeqCst);
    }
}

thread_local! {
    // NOT const-initialised and with a destructor: registered with the runtime on first touch
    static USER: UserTls = UserTls { ccs: RefCell::new(Vec::new()), weaks: RefCell::new(Vec::new()) };
}

fn touch_collector() {
    // first use of POSSIBLE_CYCLES registers its destructor
    let c = Cc::new(1u8);
    drop(c.clone());
    collect_cycles();
    let _ = buffered_objects_count();
    drop(c);
}

fn touch_user() {
    USER.with(|u| {
        let _ = u.ccs.borrow().len();
    });
}

fn buffer_it(cc: &Cc<TNode>) {
    drop(cc.clone());
}

fn build_content(content: &str) {
    let mut keep: Vec<Cc<TNode>> = Vec::new();
    let mut weaks: Vec<Weak<TNode>> = Vec::new();
    let reenter = content == "reenter" || content == "mixed";
    if matches!(content, "unique" | "mixed" | "reenter") {
        for _ in 0..3 {
            keep.push(tnode(reenter));
        }
        // a uniquely owned chain d -> e
        let d = tnode(false);
        let e = tnode(reenter);
        d.kids.borrow_mut().push(e);
        keep.push(d);
        // one object with TWO handles in the thread-local: its destructor releases them one after the
        // other (a non-last release followed by the last one, both possibly after the buffer is gone)
        let s = tnode(false);
        keep.push(s.clone());
        keep.push(s);
    }
    if matches!(content, "buffered" | "mixed") {
        for _ in 0..3 {
            let n = tnode(false);
            buffer_it(&n);
            keep.push(n);
        }
    }
    if matches!(content, "cycle" | "mixed" | "reenter") {
        // a <-> b, the thread-local holds a
        let a = tnode(reenter);
        let b = tnode(false);
        a.kids.borrow_mut().push(b.clone());
        b.kids.borrow_mut().push(a.clone());
        drop(b); // buffers b
        weaks.push(a.downgrade());
        keep.push(a);
        // c -> c, held and buffered
        let c = tnode(false);
        c.kids.borrow_mut().push(c.clone());
        buffer_it(&c);
        keep.push(c);
    }
    if matches!(content, "garbage_buffered" | "mixed") {
        // g1 <-> g2, no handle left: garbage sitting in the buffer when the thread exits
        let g1 = tnode(false);
        let g2 = tnode(reenter);
        g1.kids.borrow_mut().push(g2.clone());
        g2.kids.borrow_mut().push(g1.clone());
        weaks.push(g2.downgrade());
        drop(g1);
        drop(g2);
        // and an object that is only buffered, with a handle in the thread-local
        let h = tnode(false);
        buffer_it(&h);
        keep.push(h);
    }
    USER.with(|u| {
        u.ccs.borrow_mut().extend(keep);
        u.weaks.borrow_mut().extend(weaks);
    });
}

fn cmd_teardown(args: &[String]) -> i32 {
    let order = args.first().map(String::as_str).unwrap_or("");
    let content = args.get(1).map(String::as_str).unwrap_or("");
    if !matches!(order, "user_first" | "pc_first")
        || !matches!(content, "unique" | "buffered" | "cycle" | "garbage_buffered" | "mixed" | "reenter")
    {
        eprintln!("usage: threads teardown user_first|pc_first unique|buffered|cycle|garbage_buffered|mixed|reenter");
        return 2;
    }
    let strict_model = args.iter().any(|a| a == "--strict-model");
    lp::quarantine(true);
    let (order_s, content_s) = (order.to_string(), content.to_string());
    let buffered_at_exit = Arc::new(AtomicUsize::new(0));
    let bae = buffered_at_exit.clone();
    let joined = std::thread::Builder::new()
        .name("teardown".into())
        .spawn(move || {
            // Destructors run in reverse order of registration (verified by what the user
            // thread-local's destructor observes, see pc_alive_at_user_dtor).
            if order_s == "user_first" {
                touch_collector(); // registered first  => destroyed last
                touch_user(); //      registered second => destroyed first
            } else {
                touch_user();
                touch_collector();
            }
            // no automatic collections while the scenario is built: what is buffered / garbage at
            // thread exit is exactly what build_content sets up (CONFIG has no destructor and is
            // not involved in the destruction order)
            config(|c| c.set_auto_collect(false)).unwrap();
            build_content(&content_s);
            bae.store(enc(buffered_objects_count()), Ordering::SeqCst);
            // the thread ends here: thread-local destructors run
        })
        .unwrap()
        .join();

    let mut problems: Vec<String> = Vec::new();
    if joined.is_err() {
        problems.push("thread_panicked".into());
    }
    if TD_USER_DTOR_RUNS.load(Ordering::SeqCst) != 1 {
        problems.push(format!("user_dtor_ran_{}_times", TD_USER_DTOR_RUNS.load(Ordering::SeqCst)));
    }
    let before = TD_COUNT_BEFORE.load(Ordering::SeqCst);
    let after = TD_COUNT_AFTER.load(Ordering::SeqCst);
    let pc_alive = before >= 2;
    let expected_alive = order == "user_first";
    if pc_alive != expected_alive {
        problems.push("could_not_force_this_order".into());
    }
    if !pc_alive {
        // after the buffer's destructor: the count is an error before AND after the drops, nothing
        // can be walked, later drops are not buffered
        if after != 1 {
            problems.push(format!("buffered_objects_count_after_drops={}", dec(after)));
        }
        if TD_WALK_NONE_AFTER.load(Ordering::SeqCst) != 2 {
            problems.push("buffer_still_walkable_after_its_destructor".into());
        }
    } else if after < 2 {
        problems.push("buffer_disappeared_during_user_dtor".into());
    }
    if TD_STATE_OK.load(Ordering::SeqCst) != 2 {
        problems.push("STATE_not_accessible_in_user_dtor".into());
    }

    let created = TD_CREATED.load(Ordering::SeqCst);
    let (mut dropped, mut leaked, mut double_drops, mut leaked_marked, mut leaked_linked, mut freed_not_dropped, mut dropped_not_freed) =
        (0, 0, 0, 0, 0, 0, 0);
    for id in 0..created {
        let d = TD_DROPS[id].load(Ordering::SeqCst);
        let addr = TD_ADDR[id].load(Ordering::SeqCst);
        let live = lp::is_live(addr).is_some(); // quarantine is on: addresses are never reused
        if d > 1 {
            double_drops += 1;
        }
        if d >= 1 {
            dropped += 1;
            if live {
                dropped_not_freed += 1;
            }
        } else if !live {
            freed_not_dropped += 1;
        } else {
            leaked += 1;
            // the model (Threads.teardown_pc_clears): after the buffer's destructor no object is
            // marked PossibleCycles and none has list links
            let s = unsafe { verif::snap_raw(addr as *const ()) };
            let in_pc = verif::leaf::cm_op(14, s.tracing_word, s.counter_word).2 != 0;
            if in_pc {
                leaked_marked += 1;
            }
            if s.has_next || s.has_prev {
                leaked_linked += 1;
            }
        }
    }
    if double_drops != 0 {
        problems.push(format!("double_drop_of_{double_drops}_objects"));
    }
    if freed_not_dropped != 0 {
        problems.push(format!("{freed_not_dropped}_boxes_freed_without_dropping_the_value"));
    }
    if dropped_not_freed != 0 && pc_alive {
        // with the collector alive a dropped value's box is always released (C03 promptness)
        problems.push(format!("{dropped_not_freed}_values_dropped_but_box_not_freed"));
    }
    // Correspondence with the model's `teardown_pc_clears` (after the buffer's destructor no object
    // is marked or linked). The model's condition is STRONGER than what C19 asks for (no crash, no
    // double drop, no access to freed memory): a stale mark or link on a leaked object is never read
    // again, because every list operation goes through the failed `try_with`. It is therefore
    // reported as a note (a failure only with `--strict-model`).
    let mut notes: Vec<String> = Vec::new();
    if leaked_marked != 0 {
        notes.push(format!("{leaked_marked}_leaked_objects_still_marked_PossibleCycles_after_teardown"));
    }
    if leaked_linked != 0 {
        notes.push(format!("{leaked_linked}_leaked_objects_still_have_list_links_after_teardown"));
    }
    if strict_model {
        problems.append(&mut notes);
    }
    if matches!(content, "unique" | "buffered") && leaked != 0 {
        problems.push(format!("{leaked}_objects_leaked_although_none_is_in_a_cycle"));
    }
    let canary_bad = CANARY_BAD.load(Ordering::SeqCst);
    if canary_bad != 0 {
        problems.push(format!("{canary_bad}_bad_canaries"));
    }
    let alloc_errors = lp::alloc_errors();
    if alloc_errors != 0 {
        problems.push(format!("allocator:{:?}", lp::first_alloc_error()).replace(' ', ""));
    }
    let (quarantined, waf) = lp::quarantine_scan();
    if waf != 0 {
        problems.push(format!("{waf}_freed_blocks_written_after_free"));
    }
    let verdict = if problems.is_empty() { "ok".to_string() } else { format!("BAD {}", problems.join(";")) };
    println!(
        "td order={} content={} pc_alive_at_user_dtor={} buffered_at_thread_end={} count_in_user_dtor_before={} count_in_user_dtor_after={} nodes={} dropped={} leaked={} leaked_marked={} leaked_linked={} double_drops={} dropped_not_freed={} reenter_new_ok={} alloc_errors={} quarantined={} written_after_free={} notes={} {}",
        order,
        content,
        pc_alive,
        dec(buffered_at_exit.load(Ordering::SeqCst)),
        dec(before),
        dec(after),
        created,
        dropped,
        leaked,
        leaked_marked,
        leaked_linked,
        double_drops,
        dropped_not_freed,
        TD_REENTER_NEW_OK.load(Ordering::SeqCst),
        alloc_errors,
        quarantined,
        waf,
        if notes.is_empty() { "-".to_string() } else { notes.join(";") },
        verdict
    );
    (!problems.is_empty()) as i32
}

fn main() {
    let args: Vec<String> = std::env::args().skip(1).collect();
    let code = match args.first().map(String::as_str) {
        Some("run") => cmd_run(&args[1..]),
        Some("teardown") => cmd_teardown(&args[1..]),
        _ => {
            eprintln!("usage: threads run [--seed S] [--threads 2,4,8,16] [--rounds R] [--ops K] | threads teardown <order> <content>");
            2
        },
    };
    std::process::exit(code);
}
