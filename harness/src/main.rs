//! Correspondence harness: interprets the program text of DESIGN.md Appendix D against the
//! real rust-cc (built from /repo's working tree with --cfg rust_cc_verif) and prints the
//! canonical event log that `modelrun` (the extracted Coq model) prints for the same file.

mod alloc;

use std::cell::{Cell, RefCell};
use std::io::Write;
use std::panic::{catch_unwind, AssertUnwindSafe};
use std::rc::Rc;

use rust_cc::verif;
use rust_cc::{collect_cycles, Cc, Context, Finalize, Trace};

#[cfg(feature = "weak")]
use rust_cc::weak::Weak;
#[cfg(feature = "clean")]
use rust_cc::cleaners::{Cleanable, Cleaner};

#[global_allocator]
static GLOBAL: alloc::VAlloc = alloc::VAlloc;

const NSLOTS: usize = 6;
const ALIVE: u64 = 0xA11CE_0000_C0FFEE;
const DEAD: u64 = 0xDEAD_0000_DEAD;

// ---------------------------------------------------------------- program text

#[derive(Clone, Copy, Debug)]
enum Loc { S(usize), FS(usize), FA(usize, usize) }
#[derive(Clone, Copy, Debug)]
enum WLoc { S(usize), FS(usize), FA(usize, usize), P }
#[derive(Clone, Copy, Debug)]
enum NodeLoc { SelfN, Slot(usize) }
#[derive(Clone, Copy, Debug, PartialEq)]
enum Kind { Trace = 0, Fin = 1, Drop = 2, Action = 3, Closure = 4 }

#[derive(Clone, Debug)]
enum Cmd {
    New(Loc, usize), Clone(Loc, Loc), Drop(Loc), Move(Loc, Loc), MarkAlive(Loc), Collect,
    Downgrade(Loc, WLoc), Upgrade(WLoc, Loc), WNew(WLoc), WClone(WLoc, WLoc), WDrop(WLoc),
    TryUnwrap(Loc, usize), DropValue(usize), FinAgain(Loc), NewCyclic(Loc, usize, usize, bool),
    Register(NodeLoc, usize, usize), Clean(usize), CDrop(usize), Bag(Loc, u64), Unbag(u64),
    Borrow(NodeLoc), Unborrow(NodeLoc), CfgAuto(bool), CfgPercent(u64, u32), CfgBuffered(usize),
    Arm(Kind, u64), Panic, Obs(Loc), WObs(WLoc), SObs,
}

#[derive(Clone, Debug, Default)]
struct Class { nf: usize, traced: Vec<bool>, nw: usize, cleaner: bool, fin: Option<usize>, drop: Option<usize> }

#[derive(Clone, Debug, Default)]
struct Program { header: String, classes: Vec<Class>, scripts: Vec<Vec<Cmd>>, main: Vec<Cmd> }

fn perr(s: &str) -> ! { eprintln!("parse error: {}", s); std::process::exit(2) }
fn pint(s: &str) -> usize { s.parse().unwrap_or_else(|_| perr(s)) }

fn parse_loc(s: &str) -> Loc {
    if let Some(r) = s.strip_prefix('s') { Loc::S(pint(r)) }
    else if let Some(r) = s.strip_prefix('f') { Loc::FS(pint(r)) }
    else if let Some(r) = s.strip_prefix('a') {
        let mut it = r.split('.');
        Loc::FA(pint(it.next().unwrap_or("")), pint(it.next().unwrap_or("")))
    } else { perr(s) }
}
fn parse_wloc(s: &str) -> WLoc {
    if s == "wp" { WLoc::P }
    else if let Some(r) = s.strip_prefix("wf") { WLoc::FS(pint(r)) }
    else if let Some(r) = s.strip_prefix("wa") {
        let mut it = r.split('.');
        WLoc::FA(pint(it.next().unwrap_or("")), pint(it.next().unwrap_or("")))
    } else if let Some(r) = s.strip_prefix('w') { WLoc::S(pint(r)) }
    else { perr(s) }
}
fn parse_node(s: &str) -> NodeLoc {
    if s == "self" { NodeLoc::SelfN } else if let Some(r) = s.strip_prefix('n') { NodeLoc::Slot(pint(r)) } else { perr(s) }
}
fn parse_kind(s: &str) -> Kind {
    match s { "trace" => Kind::Trace, "fin" => Kind::Fin, "drop" => Kind::Drop, "action" => Kind::Action, "closure" => Kind::Closure, _ => perr(s) }
}
fn parse_cmd(t: &[&str]) -> Cmd {
    match t {
        ["new", l, c] => Cmd::New(parse_loc(l), pint(c)),
        ["clone", a, b] => Cmd::Clone(parse_loc(a), parse_loc(b)),
        ["drop", l] => Cmd::Drop(parse_loc(l)),
        ["move", a, b] => Cmd::Move(parse_loc(a), parse_loc(b)),
        ["markalive", l] => Cmd::MarkAlive(parse_loc(l)),
        ["collect"] => Cmd::Collect,
        ["downgrade", l, w] => Cmd::Downgrade(parse_loc(l), parse_wloc(w)),
        ["upgrade", w, l] => Cmd::Upgrade(parse_wloc(w), parse_loc(l)),
        ["wnew", w] => Cmd::WNew(parse_wloc(w)),
        ["wclone", a, b] => Cmd::WClone(parse_wloc(a), parse_wloc(b)),
        ["wdrop", w] => Cmd::WDrop(parse_wloc(w)),
        ["tryunwrap", l, v] => Cmd::TryUnwrap(parse_loc(l), pint(v)),
        ["dropvalue", v] => Cmd::DropValue(pint(v)),
        ["finagain", l] => Cmd::FinAgain(parse_loc(l)),
        ["newcyclic", l, c, s, b] => Cmd::NewCyclic(parse_loc(l), pint(c), pint(s), *b == "1"),
        ["register", n, s, c] => Cmd::Register(parse_node(n), pint(s), pint(c)),
        ["clean", c] => Cmd::Clean(pint(c)),
        ["cdrop", c] => Cmd::CDrop(pint(c)),
        ["bag", l, n] => Cmd::Bag(parse_loc(l), pint(n) as u64),
        ["unbag", n] => Cmd::Unbag(pint(n) as u64),
        ["borrow", n] => Cmd::Borrow(parse_node(n)),
        ["unborrow", n] => Cmd::Unborrow(parse_node(n)),
        ["cfgauto", b] => Cmd::CfgAuto(*b == "1"),
        ["cfgpercent", a, e] => Cmd::CfgPercent(pint(a) as u64, pint(e) as u32),
        ["cfgbuffered", n] => Cmd::CfgBuffered(pint(n)),
        ["arm", k, n] => Cmd::Arm(parse_kind(k), pint(n) as u64),
        ["panic"] => Cmd::Panic,
        ["obs", l] => Cmd::Obs(parse_loc(l)),
        ["wobs", w] => Cmd::WObs(parse_wloc(w)),
        ["sobs"] => Cmd::SObs,
        _ => perr(&t.join(" ")),
    }
}
fn parse_cmds(s: &str) -> Vec<Cmd> {
    s.split(';').map(|c| c.split_whitespace().collect::<Vec<_>>()).filter(|t| !t.is_empty()).map(|t| parse_cmd(&t)).collect()
}
fn kvs<'a>(toks: &[&'a str]) -> Vec<(&'a str, &'a str)> {
    toks.iter().filter_map(|t| t.split_once('=')).collect()
}
fn getk<'a>(l: &[(&'a str, &'a str)], k: &str) -> &'a str {
    l.iter().find(|(a, _)| *a == k).map(|(_, b)| *b).unwrap_or_else(|| perr(k))
}

fn parse_file(text: &str) -> Vec<Program> {
    let mut out = Vec::new();
    let mut cur: Option<Program> = None;
    for line in text.lines() {
        let line = line.trim();
        if line.is_empty() { continue; }
        if line.starts_with('#') {
            if cur.is_none() { cur = Some(Program { header: line.to_string(), ..Default::default() }); }
            continue;
        }
        let p = cur.get_or_insert_with(Program::default);
        let toks: Vec<&str> = line.split_whitespace().collect();
        match toks[0] {
            "conf" => {},
            "class" => {
                let i = pint(toks[1]);
                let l = kvs(&toks[2..]);
                let opt = |k: &str| match getk(&l, k) { "-" => None, s => Some(pint(s)) };
                let c = Class {
                    nf: pint(getk(&l, "nf")), traced: getk(&l, "traced").chars().map(|c| c == '1').collect(),
                    nw: pint(getk(&l, "nw")), cleaner: getk(&l, "cleaner") == "1", fin: opt("fin"), drop: opt("drop"),
                };
                if p.classes.len() <= i { p.classes.resize(i + 1, Class::default()); }
                p.classes[i] = c;
            },
            "script" => {
                let i = pint(toks[1]);
                let body = line.split_once(':').map(|x| x.1).unwrap_or("");
                if p.scripts.len() <= i { p.scripts.resize(i + 1, Vec::new()); }
                p.scripts[i] = parse_cmds(body);
            },
            "main" => { p.main = parse_cmds(line.split_once(':').map(|x| x.1).unwrap_or("")); },
            "end" => { out.push(cur.take().unwrap()); },
            _ => perr(line),
        }
    }
    if let Some(p) = cur { if !p.main.is_empty() { out.push(p); } }
    out
}

// ---------------------------------------------------------------- interpreter state

#[derive(Clone, Copy, PartialEq, Debug)]
enum Life { Live, Dropping, Dropped }

struct Interp {
    prog: Program,
    slots: Vec<Option<Cc<Node>>>,
    #[cfg(feature = "weak")]
    wslots: Vec<Option<Weak<Node>>>,
    #[cfg(feature = "clean")]
    cslots: Vec<Option<Rc<Cleanable>>>,
    values: Vec<Option<Node>>,
    bag: Vec<Cc<Node>>,
    #[cfg(feature = "weak")]
    wparam: Vec<*const Weak<Node>>,
    fuses: [u64; 5],
    next_id: usize,
    next_aid: usize,
    life: Vec<Life>,
    log: Vec<String>,
    /// number of script commands executed since the current top-level command started
    script_steps: usize,
}

thread_local! {
    static INTERP: RefCell<Option<Interp>> = const { RefCell::new(None) };
    static STREAM: Cell<bool> = const { Cell::new(false) };
}

/// Short borrow of the interpreter state; never held across a call into rust-cc that can run
/// user callbacks.
fn with<R>(f: impl FnOnce(&mut Interp) -> R) -> R {
    INTERP.with(|i| {
        let mut b = i.borrow_mut();
        f(b.as_mut().expect("interpreter not installed"))
    })
}

fn log(s: String) {
    let pend = alloc::drain_pending();
    with(|i| {
        for p in pend { if STREAM.with(|s| s.get()) { println!("{}", p); } i.log.push(p); }
        if STREAM.with(|s| s.get()) { println!("{}", s); }
        i.log.push(s);
    });
}
fn flush_pending() {
    let pend = alloc::drain_pending();
    if !pend.is_empty() { with(|i| for p in pend { if STREAM.with(|s| s.get()) { println!("{}", p); } i.log.push(p); }); }
}
fn bad(what: &str, o: usize) { log(format!("BAD {} {}", what, o)); }

fn flags_str() -> String {
    let (c, f, d) = verif::flags().unwrap_or((false, false, false));
    let t = rust_cc::state::is_tracing().unwrap_or(false);
    format!("{}{}{}{}", c as u8, f as u8, d as u8, t as u8)
}

/// returns true when the callback must panic now
fn tick(k: Kind) -> bool {
    with(|i| {
        let n = i.fuses[k as usize];
        if n == 0 { false } else { i.fuses[k as usize] = n - 1; n == 1 }
    })
}

// ---------------------------------------------------------------- the payload type

struct Tail { id: usize }
impl Drop for Tail {
    fn drop(&mut self) {
        let id = self.id;
        let _ = INTERP.try_with(|i| if let Ok(mut b) = i.try_borrow_mut() { if let Some(i) = b.as_mut() { if id < i.life.len() { i.life[id] = Life::Dropped; } } });
    }
}

struct Node {
    canary: Cell<u64>,
    id: usize,
    cls: usize,
    borrowed: Cell<bool>,
    traced: Vec<bool>,
    fields: RefCell<Vec<Option<Cc<Node>>>>,
    #[cfg(feature = "weak")]
    weaks: RefCell<Vec<Option<Weak<Node>>>>,
    #[cfg(feature = "clean")]
    cleaner: Option<Cleaner>,
    #[cfg(feature = "clean")]
    map_id: Cell<Option<usize>>,
    _tail: Tail,
}

impl Node {
    fn new(id: usize, cls: usize) -> Node {
        let c = with(|i| i.prog.classes.get(cls).cloned().unwrap_or_default());
        with(|i| { if i.life.len() <= id { i.life.resize(id + 1, Life::Dropped); } i.life[id] = Life::Live; });
        Node {
            canary: Cell::new(ALIVE), id, cls, borrowed: Cell::new(false), traced: c.traced.clone(),
            fields: RefCell::new((0..c.nf).map(|_| None).collect()),
            #[cfg(feature = "weak")]
            weaks: RefCell::new((0..c.nw).map(|_| None).collect()),
            #[cfg(feature = "clean")]
            cleaner: if c.cleaner { Some(Cleaner::new()) } else { None },
            #[cfg(feature = "clean")]
            map_id: Cell::new(None),
            _tail: Tail { id },
        }
    }
}

unsafe impl Trace for Node {
    fn trace(&self, ctx: &mut Context<'_>) {
        log(format!("cb trace {} {}", self.id, flags_str()));
        if tick(Kind::Trace) { panic!("fuse: trace"); }
        if self.canary.get() != ALIVE { bad("UseAfterDrop", self.id); return; }
        if self.borrowed.get() { return; }
        match self.fields.try_borrow() {
            Ok(f) => for (j, c) in f.iter().enumerate() {
                if self.traced.get(j).copied().unwrap_or(false) { if let Some(c) = c { c.trace(ctx); } }
            },
            Err(_) => bad("HarnessBorrow", self.id),
        }
    }
}

impl Finalize for Node {
    fn finalize(&self) {
        log(format!("cb fin {} {}", self.id, flags_str()));
        check_garbage("FinalizeReachable", self.id);
        if tick(Kind::Fin) { panic!("fuse: fin"); }
        let s = with(|i| i.prog.classes.get(self.cls).and_then(|c| c.fin));
        if let Some(s) = s { run_script(Some(self as *const Node), s); }
    }
}

impl Drop for Node {
    fn drop(&mut self) {
        if self.canary.get() != ALIVE {
            bad("DoubleDrop", self.id);
            // the fields were already dropped once: do not let the glue drop them again
            std::mem::forget(std::mem::take(&mut *self.fields.borrow_mut()));
            #[cfg(feature = "weak")]
            std::mem::forget(std::mem::take(&mut *self.weaks.borrow_mut()));
            #[cfg(feature = "clean")]
            std::mem::forget(self.cleaner.take());
            return;
        }
        self.canary.set(DEAD);
        let id = self.id;
        with(|i| if id < i.life.len() { i.life[id] = Life::Dropping; });
        log(format!("cb drop {} {}", self.id, flags_str()));
        check_garbage("DropReachable", self.id);
        if tick(Kind::Drop) { panic!("fuse: drop"); }
        let s = with(|i| i.prog.classes.get(self.cls).and_then(|c| c.drop));
        if let Some(s) = s { run_script(Some(self as *const Node), s); }
        // drop glue: fields (in index order), weaks, cleaner, tail
    }
}

// ---------------------------------------------------------------- shadow reachability

/// Is the object `target` reachable from the handles the program holds (slots, bag, moved-out
/// values) through strong fields, traced or not?  Computed on the real graph, independent of the
/// model.  Only called while no user code has run yet in the current top-level command.
fn reachable(target: usize) -> bool {
    let mut stack: Vec<*const Node> = Vec::new();
    with(|i| {
        for s in i.slots.iter().flatten() { stack.push(&**s as *const Node); }
        for s in i.bag.iter() { stack.push(&**s as *const Node); }
        for v in i.values.iter().flatten() {
            if let Ok(f) = v.fields.try_borrow() { for c in f.iter().flatten() { stack.push(&**c as *const Node); } }
        }
    });
    let mut seen: Vec<*const Node> = Vec::new();
    while let Some(p) = stack.pop() {
        if seen.contains(&p) { continue; }
        seen.push(p);
        let n = unsafe { &*p };
        if n.canary.get() != ALIVE { continue; }
        if n.id == target { return true; }
        if let Ok(f) = n.fields.try_borrow() { for c in f.iter().flatten() { stack.push(&**c as *const Node); } }
    }
    false
}

fn check_garbage(kind: &str, id: usize) {
    if with(|i| i.script_steps) == 0 && reachable(id) {
        bad(kind, id);
    }
}

// ---------------------------------------------------------------- locations

#[derive(Clone, Copy)]
enum RLoc { Slot(usize), Field(*const Node, usize) }
#[derive(Clone, Copy)]
enum RWLoc { Slot(usize), Field(*const Node, usize), Param }

/// The node designated by slot `i`, for access to its fields through a live handle.
fn node_via_slot(i: usize) -> Option<*const Node> {
    let p: Option<(*const Node, usize)> = with(|it| it.slots.get(i).and_then(|s| s.as_ref()).map(|cc| {
        let n: &Node = &**cc;
        (n as *const Node, verif::box_addr(cc) as usize)
    }));
    let (p, addr) = p?;
    if alloc::find_live(addr).is_none() && alloc::find_any(addr).is_some() {
        let id = alloc::find_any(addr).map(|r| r.id).unwrap_or(0);
        bad("UseAfterFree", id);
        return None;
    }
    let n = unsafe { &*p };
    if n.canary.get() != ALIVE {
        let id = alloc::find_any(addr).map(|r| r.id).unwrap_or(usize::MAX);
        bad("UseAfterDrop", id);
        return None;
    }
    Some(p)
}

fn self_node(selfp: Option<*const Node>) -> Option<*const Node> {
    let p = selfp?;
    let n = unsafe { &*p };
    let l = with(|i| i.life.get(n.id).copied().unwrap_or(Life::Dropped));
    if l == Life::Live || l == Life::Dropping { Some(p) } else { None }
}

fn resolve(selfp: Option<*const Node>, l: Loc) -> Option<RLoc> {
    match l {
        Loc::S(i) => if i < NSLOTS { Some(RLoc::Slot(i)) } else { None },
        Loc::FS(j) => { let p = self_node(selfp)?; if j < unsafe { &*p }.fields.borrow().len() { Some(RLoc::Field(p, j)) } else { None } },
        Loc::FA(i, j) => { let p = node_via_slot(i)?; if j < unsafe { &*p }.fields.borrow().len() { Some(RLoc::Field(p, j)) } else { None } },
    }
}
#[cfg(feature = "weak")]
fn wresolve(selfp: Option<*const Node>, l: WLoc) -> Option<RWLoc> {
    match l {
        WLoc::S(i) => if i < NSLOTS { Some(RWLoc::Slot(i)) } else { None },
        WLoc::FS(j) => { let p = self_node(selfp)?; if j < unsafe { &*p }.weaks.borrow().len() { Some(RWLoc::Field(p, j)) } else { None } },
        WLoc::FA(i, j) => { let p = node_via_slot(i)?; if j < unsafe { &*p }.weaks.borrow().len() { Some(RWLoc::Field(p, j)) } else { None } },
        WLoc::P => if with(|i| !i.wparam.is_empty()) { Some(RWLoc::Param) } else { None },
    }
}
fn nresolve(selfp: Option<*const Node>, n: NodeLoc) -> Option<*const Node> {
    match n { NodeLoc::SelfN => self_node(selfp), NodeLoc::Slot(i) => node_via_slot(i) }
}

/// Runs `f` on a shared reference to the handle stored at `r` (no user callback may run in `f`).
fn with_cc<R>(r: RLoc, f: impl FnOnce(&Cc<Node>) -> R) -> Option<R> {
    match r {
        RLoc::Slot(i) => INTERP.with(|it| { let b = it.borrow(); b.as_ref().unwrap().slots[i].as_ref().map(f) }),
        RLoc::Field(p, j) => { let n = unsafe { &*p }; let b = n.fields.borrow(); b[j].as_ref().map(f) },
    }
}
fn take_loc(r: RLoc) -> Option<Cc<Node>> {
    match r {
        RLoc::Slot(i) => with(|it| it.slots[i].take()),
        RLoc::Field(p, j) => unsafe { &*p }.fields.borrow_mut()[j].take(),
    }
}
fn put_loc(r: RLoc, v: Option<Cc<Node>>) -> Option<Cc<Node>> {
    match r {
        RLoc::Slot(i) => with(|it| std::mem::replace(&mut it.slots[i], v)),
        RLoc::Field(p, j) => std::mem::replace(&mut unsafe { &*p }.fields.borrow_mut()[j], v),
    }
}
/// `*loc = Some(v)`: the old content is dropped after the store, outside any borrow.
fn store(r: RLoc, v: Cc<Node>) {
    let old = put_loc(r, Some(v));
    drop(old);
}

#[cfg(feature = "weak")]
fn with_weak<R>(r: RWLoc, f: impl FnOnce(&Weak<Node>) -> R) -> Option<R> {
    match r {
        RWLoc::Slot(i) => INTERP.with(|it| { let b = it.borrow(); b.as_ref().unwrap().wslots[i].as_ref().map(f) }),
        RWLoc::Field(p, j) => { let n = unsafe { &*p }; let b = n.weaks.borrow(); b[j].as_ref().map(f) },
        RWLoc::Param => { let p = with(|it| it.wparam.last().copied()); p.map(|p| f(unsafe { &*p })) },
    }
}
#[cfg(feature = "weak")]
fn put_weak(r: RWLoc, v: Option<Weak<Node>>) -> Option<Weak<Node>> {
    match r {
        RWLoc::Slot(i) => with(|it| std::mem::replace(&mut it.wslots[i], v)),
        RWLoc::Field(p, j) => std::mem::replace(&mut unsafe { &*p }.weaks.borrow_mut()[j], v),
        RWLoc::Param => None,
    }
}

// ---------------------------------------------------------------- registration of allocations

fn register_box(id: usize, addr: usize) {
    let (s, a) = alloc::recent_layout(addr).unwrap_or((0, 0));
    alloc::register(addr, s, a, id, false);
    log(format!("alloc {} {} {}", id, s, a));
}
#[cfg(feature = "weak")]
fn maybe_register_side(id: usize, box_addr: usize) {
    if let Some((sa, _)) = unsafe { verif::side_raw(box_addr as *const ()) } {
        if alloc::find_live(sa as usize).is_none() {
            let (s, a) = alloc::recent_layout(sa as usize).unwrap_or((0, 0));
            alloc::register(sa as usize, s, a, id, true);
            log(format!("salloc {}", id));
        }
    }
}
fn id_of_box(addr: usize) -> usize {
    alloc::find_any(addr).map(|r| r.id).unwrap_or(usize::MAX)
}

// ---------------------------------------------------------------- commands

fn res(s: &str) { log(format!("res {}", s)); }

fn run_script(selfp: Option<*const Node>, s: usize) {
    let cmds = with(|i| i.prog.scripts.get(s).cloned().unwrap_or_default());
    for c in cmds.iter() { with(|i| i.script_steps += 1); exec(selfp, c); }
}

fn obs_cc(cc: &Cc<Node>) -> String {
    let addr = verif::box_addr(cc) as usize;
    let id = id_of_box(addr);
    if alloc::find_live(addr).is_none() { return format!("BAD UseAfterFree {}", id); }
    let n: &Node = &**cc;
    #[cfg(feature = "weak")]
    let wc = cc.weak_count();
    #[cfg(not(feature = "weak"))]
    let wc = 0;
    #[cfg(feature = "fin")]
    let fin = cc.already_finalized();
    #[cfg(not(feature = "fin"))]
    let fin = false;
    let alive = n.canary.get() == ALIVE;
    let mut s = String::new();
    if !alive { s.push_str(&format!("BAD UseAfterDrop {}\n", id)); }
    s.push_str(&format!("obs {} rc={} wc={} fin={} alive={}", id, cc.strong_count(), wc, fin as u8, alive as u8));
    s
}

fn exec(selfp: Option<*const Node>, c: &Cmd) {
    match c {
        Cmd::New(dst, cls) => {
            let Some(r) = resolve(selfp, *dst) else { return res("skip") };
            let id = with(|i| { let id = i.next_id; i.next_id += 1; id });
            let node = Node::new(id, *cls);
            let cc = Cc::new(node);
            register_box(id, verif::box_addr(&cc) as usize);
            store(r, cc);
            res("ok")
        },
        Cmd::Clone(src, dst) => {
            let rs = resolve(selfp, *src);
            let rd = resolve(selfp, *dst);
            let (Some(rs), Some(rd)) = (rs, rd) else { return res("skip") };
            let Some(cc) = with_cc(rs, |c| c.clone()) else { return res("skip") };
            store(rd, cc);
            res("ok")
        },
        Cmd::Drop(l) => {
            let Some(r) = resolve(selfp, *l) else { return res("skip") };
            let Some(cc) = take_loc(r) else { return res("skip") };
            drop(cc);
            res("ok")
        },
        Cmd::Move(src, dst) => {
            let rs = resolve(selfp, *src);
            let rd = resolve(selfp, *dst);
            let (Some(rs), Some(rd)) = (rs, rd) else { return res("skip") };
            let Some(cc) = take_loc(rs) else { return res("skip") };
            store(rd, cc);
            res("ok")
        },
        Cmd::MarkAlive(l) => {
            let Some(r) = resolve(selfp, *l) else { return res("skip") };
            match with_cc(r, |c| c.mark_alive()) { Some(()) => res("ok"), None => res("skip") }
        },
        Cmd::Collect => { collect_cycles(); res("ok") },
        #[cfg(feature = "weak")]
        Cmd::Downgrade(l, w) => {
            let r = resolve(selfp, *l);
            let rw = wresolve(selfp, *w);
            let (Some(r), Some(rw)) = (r, rw) else { return res("skip") };
            if matches!(rw, RWLoc::Param) { return res("skip"); }
            let Some((wk, addr)) = with_cc(r, |c| (c.downgrade(), verif::box_addr(c) as usize)) else { return res("skip") };
            maybe_register_side(id_of_box(addr), addr);
            let old = put_weak(rw, Some(wk));
            drop(old);
            res("ok")
        },
        #[cfg(feature = "weak")]
        Cmd::Upgrade(w, dst) => {
            let rw = wresolve(selfp, *w);
            let rd = resolve(selfp, *dst);
            let (Some(rw), Some(rd)) = (rw, rd) else { return res("skip") };
            let Some(up) = with_weak(rw, |w| w.upgrade()) else { return res("skip") };
            match up {
                None => res("none"),
                Some(cc) => {
                    let id = id_of_box(verif::box_addr(&cc) as usize);
                    store(rd, cc);
                    res(&format!("some {}", id))
                },
            }
        },
        #[cfg(feature = "weak")]
        Cmd::WNew(w) => {
            let Some(rw) = wresolve(selfp, *w) else { return res("skip") };
            if matches!(rw, RWLoc::Param) { return res("skip"); }
            let old = put_weak(rw, Some(Weak::new()));
            drop(old);
            res("ok")
        },
        #[cfg(feature = "weak")]
        Cmd::WClone(a, b) => {
            let ra = wresolve(selfp, *a);
            let rb = wresolve(selfp, *b);
            let (Some(ra), Some(rb)) = (ra, rb) else { return res("skip") };
            if matches!(rb, RWLoc::Param) { return res("skip"); }
            let Some(wk) = with_weak(ra, |w| w.clone()) else { return res("skip") };
            let old = put_weak(rb, Some(wk));
            drop(old);
            res("ok")
        },
        #[cfg(feature = "weak")]
        Cmd::WDrop(w) => {
            let Some(rw) = wresolve(selfp, *w) else { return res("skip") };
            if matches!(rw, RWLoc::Param) { return res("skip"); }
            match put_weak(rw, None) { Some(old) => { drop(old); res("ok") }, None => res("skip") }
        },
        Cmd::TryUnwrap(l, v) => {
            let Some(r) = resolve(selfp, *l) else { return res("skip") };
            if !with(|i| matches!(i.values.get(*v), Some(None))) { return res("skip"); }
            let Some(cc) = take_loc(r) else { return res("skip") };
            match Cc::try_unwrap(cc) {
                Ok(node) => { with(|i| i.values[*v] = Some(node)); res("unwrap-ok") },
                Err(cc) => { let old = put_loc(r, Some(cc)); std::mem::forget(old); res("unwrap-err") },
            }
        },
        Cmd::DropValue(v) => {
            let Some(node) = with(|i| i.values.get_mut(*v).and_then(|x| x.take())) else { return res("skip") };
            drop(node);
            res("ok")
        },
        #[cfg(feature = "fin")]
        Cmd::FinAgain(l) => {
            let Some(r) = resolve(selfp, *l) else { return res("skip") };
            let done = match r {
                RLoc::Slot(i) => INTERP.with(|it| { let mut b = it.borrow_mut(); b.as_mut().unwrap().slots[i].as_mut().map(|c| c.finalize_again()) }),
                RLoc::Field(p, j) => { let n = unsafe { &*p }; let mut b = n.fields.borrow_mut(); b[j].as_mut().map(|c| c.finalize_again()) },
            };
            match done { Some(()) => res("ok"), None => res("skip") }
        },
        #[cfg(feature = "weak")]
        Cmd::NewCyclic(dst, cls, script, selfweak) => {
            let Some(r) = resolve(selfp, *dst) else { return res("skip") };
            let id = with(|i| { let id = i.next_id; i.next_id += 1; id });
            struct PopGuard;
            impl Drop for PopGuard { fn drop(&mut self) { with(|i| { i.wparam.pop(); }); } }
            let cc = Cc::new_cyclic(|w: &Weak<Node>| {
                let (_, baddr) = verif::weak_addrs(w);
                register_box(id, baddr as usize);
                maybe_register_side(id, baddr as usize);
                with(|i| i.wparam.push(w as *const Weak<Node>));
                let _g = PopGuard;
                log(format!("cb closure {} {}", id, flags_str()));
                if tick(Kind::Closure) { panic!("fuse: closure"); }
                run_script(None, *script);
                let node = Node::new(id, *cls);
                if *selfweak && !node.weaks.borrow().is_empty() { node.weaks.borrow_mut()[0] = Some(w.clone()); }
                node
            });
            store(r, cc);
            res("ok")
        },
        #[cfg(feature = "clean")]
        Cmd::Register(n, script, c) => {
            let Some(p) = nresolve(selfp, *n) else { return res("skip") };
            if *c >= NSLOTS { return res("skip"); }
            let node = unsafe { &*p };
            let Some(cleaner) = node.cleaner.as_ref() else { return res("skip") };
            let fresh_map = verif::cleaner_map_addr(cleaner).is_none();
            let mut own_mid = usize::MAX;
            if fresh_map { own_mid = with(|i| { let id = i.next_id; i.next_id += 1; id }); node.map_id.set(Some(own_mid)); }
            let aid_cell: Rc<Cell<usize>> = Rc::new(Cell::new(usize::MAX));
            let ac = aid_cell.clone();
            let script = *script;
            let cl = cleaner.register(move || {
                log(format!("cb action {} {}", ac.get(), flags_str()));
                if tick(Kind::Action) { panic!("fuse: action"); }
                run_script(None, script);
            });
            let aid = with(|i| { let a = i.next_aid; i.next_aid += 1; a });
            aid_cell.set(aid);
            let maddr = verif::cleaner_map_addr(cleaner).map(|a| a as usize).unwrap_or(0);
            let mut mid = if fresh_map { own_mid } else { node.map_id.get().unwrap_or(usize::MAX) };
            if fresh_map {
                if alloc::find_live(maddr).is_some() {
                    // a register nested in the collection started by this one created the map first: the map
                    // this call allocated was dropped at once (it is empty: no callback ran)
                    let (ms, ma) = verif::cleaner_map_layout();
                    log(format!("alloc {} {} {}", mid, ms, ma));
                    log(format!("free {} {} {}", mid, ms, ma));
                    mid = id_of_box(maddr);
                    node.map_id.set(Some(mid));
                } else {
                    register_box(mid, maddr);
                }
            }
            maybe_register_side(mid, maddr);
            let old = with(|i| std::mem::replace(&mut i.cslots[*c], Some(Rc::new(cl))));
            drop(old);
            res("ok")
        },
        #[cfg(feature = "clean")]
        Cmd::Clean(c) => {
            let Some(cl) = with(|i| i.cslots.get(*c).and_then(|x| x.clone())) else { return res("skip") };
            cl.clean();
            drop(cl);
            res("ok")
        },
        #[cfg(feature = "clean")]
        Cmd::CDrop(c) => {
            match with(|i| i.cslots.get_mut(*c).and_then(|x| x.take())) { Some(cl) => { drop(cl); res("ok") }, None => res("skip") }
        },
        Cmd::Bag(l, n) => {
            let Some(r) = resolve(selfp, *l) else { return res("skip") };
            if with_cc(r, |_| ()).is_none() { return res("skip"); }
            for _ in 0..*n {
                let cc = with_cc(r, |c| c.clone()).unwrap();
                with(|i| i.bag.push(cc));
            }
            res("ok")
        },
        Cmd::Unbag(n) => {
            for _ in 0..*n {
                let Some(cc) = with(|i| i.bag.pop()) else { break };
                drop(cc);
            }
            res("ok")
        },
        Cmd::Borrow(n) => { match nresolve(selfp, *n) { Some(p) => { unsafe { &*p }.borrowed.set(true); res("ok") }, None => res("skip") } },
        Cmd::Unborrow(n) => { match nresolve(selfp, *n) { Some(p) => { unsafe { &*p }.borrowed.set(false); res("ok") }, None => res("skip") } },
        #[cfg(feature = "auto")]
        Cmd::CfgAuto(b) => { let _ = rust_cc::config::config(|c| c.set_auto_collect(*b)); res("ok") },
        #[cfg(feature = "auto")]
        Cmd::CfgPercent(num, e) => {
            let p = (*num as f64) * (2f64).powi(-(*e as i32));
            let r = rust_cc::config::config(|c| c.set_adjustment_percent(p));
            let _ = r;
            res("ok")
        },
        #[cfg(feature = "auto")]
        Cmd::CfgBuffered(n) => { let _ = rust_cc::config::config(|c| c.set_buffered_objects_threshold(std::num::NonZeroUsize::new(*n))); res("ok") },
        Cmd::Arm(k, n) => { with(|i| i.fuses[*k as usize] = *n); res("ok") },
        Cmd::Panic => { panic!("script panic") },
        Cmd::Obs(l) => {
            let Some(r) = resolve(selfp, *l) else { return res("skip") };
            match with_cc(r, obs_cc) { Some(s) => { for line in s.lines() { log(line.to_string()); } res("ok") }, None => res("skip") }
        },
        #[cfg(feature = "weak")]
        Cmd::WObs(w) => {
            let Some(rw) = wresolve(selfp, *w) else { return res("skip") };
            match with_weak(rw, |w| (w.strong_count(), w.weak_count())) {
                Some((sc, wc)) => { log(format!("wobs sc={} wc={}", sc, wc)); res("ok") },
                None => res("skip"),
            }
        },
        Cmd::SObs => {
            let b = rust_cc::state::allocated_bytes().map(|x| x.to_string()).unwrap_or("err".into());
            let buf = rust_cc::state::buffered_objects_count().map(|x| x.to_string()).unwrap_or("err".into());
            let ex = rust_cc::state::executions_count().map(|x| x.to_string()).unwrap_or("err".into());
            let t = rust_cc::state::is_tracing().unwrap_or(false);
            log(format!("sobs bytes={} buffered={} exec={} tracing={}", b, buf, ex, t as u8));
            res("ok")
        },
        #[allow(unreachable_patterns)]
        _ => res("skip"),
    }
}

// ---------------------------------------------------------------- snapshots

fn mark_s(m: u16) -> &'static str { match m { 0 => "NM", 1 => "PC", 2 => "IL", _ => "IQ" } }

fn snapshot() {
    let boxes = alloc::live_boxes();
    let buf = verif::buffer_walk(1 << 20);
    let in_buf: Vec<usize> = buf.as_ref().map(|b| b.addrs.iter().map(|a| *a as usize).collect()).unwrap_or_default();
    let mut lines = Vec::new();
    for r in boxes.iter() {
        let s = unsafe { verif::snap_raw(r.addr as *const ()) };
        let (tw, cw) = (s.tracing_word, s.counter_word);
        let mut l = format!("snap {} rc={} tc={} mark={} fin={} side={}", r.id, cw & 0x3FFF, tw & 0x3FFF, mark_s(tw >> 14), (cw >> 14) & 1, (cw >> 15) & 1);
        #[cfg(feature = "weak")]
        if let Some((_, w)) = unsafe { verif::side_raw(r.addr as *const ()) } {
            l.push_str(&format!(" weak={} acc={}", w & 0x7FFF, (w >> 15) & 1));
        }
        lines.push(l);
        if !in_buf.contains(&r.addr) && (s.has_next || s.has_prev) { lines.push(format!("BAD DanglingLink {}", r.id)); }
    }
    match buf {
        Some(b) => {
            let ids: Vec<String> = b.addrs.iter().map(|a| { let id = id_of_box(*a as usize); if id == usize::MAX { "?".to_string() } else { id.to_string() } }).collect();
            let mut l = String::from("buf");
            for i in ids { l.push(' '); l.push_str(&i); }
            l.push_str(&format!(" size={}", b.size));
            lines.push(l);
            if !b.links_ok { lines.push("BAD BufferLinks 0".to_string()); }
        },
        None => lines.push("buf err".to_string()),
    }
    let (c, f, d) = verif::flags().unwrap_or((false, false, false));
    #[cfg(feature = "auto")]
    let thr = verif::bytes_threshold().map(|t| t.to_string()).unwrap_or("err".into());
    #[cfg(not(feature = "auto"))]
    let thr = "100".to_string();
    lines.push(format!("state c={} f={} d={} thr={}", c as u8, f as u8, d as u8, thr));
    for l in lines { log(l); }
}

// ---------------------------------------------------------------- driver

fn run_program(p: Program, idx: usize, snap: bool, stream: bool) -> Vec<String> {
    let header = p.header.clone();
    let h = std::thread::Builder::new().stack_size(1 << 30).spawn(move || {
        alloc::install();
        STREAM.with(|s| s.set(stream));
        let main = p.main.clone();
        INTERP.with(|i| *i.borrow_mut() = Some(Interp {
            prog: p, slots: (0..NSLOTS).map(|_| None).collect(),
            #[cfg(feature = "weak")]
            wslots: (0..NSLOTS).map(|_| None).collect(),
            #[cfg(feature = "clean")]
            cslots: (0..NSLOTS).map(|_| None).collect(),
            values: (0..NSLOTS).map(|_| None).collect(), bag: Vec::new(),
            #[cfg(feature = "weak")]
            wparam: Vec::new(),
            fuses: [0; 5], next_id: 0, next_aid: 0, life: Vec::new(), log: Vec::new(), script_steps: 0,
        }));
        if stream { println!("== program {} {}", idx, header); }
        for (k, c) in main.iter().enumerate() {
            log(format!("-- {}", k));
            with(|i| i.script_steps = 0);
            let r = catch_unwind(AssertUnwindSafe(|| exec(None, c)));
            if r.is_err() { res("panicked"); }
            flush_pending();
            if snap { snapshot(); }
        }
        // leak whatever the program still holds: thread teardown is the subject of other probes
        let it = INTERP.with(|i| i.borrow_mut().take()).unwrap();
        let log = it.log.clone();
        alloc::uninstall();
        std::mem::forget(it);
        log
    }).unwrap();
    match h.join() {
        Ok(l) => l,
        Err(_) => vec!["BAD HarnessThreadPanicked 0".to_string()],
    }
}

fn main() {
    std::panic::set_hook(Box::new(|_| {}));
    let mut files = Vec::new();
    let mut snap = true;
    let mut stream = false;
    let mut only: Option<usize> = None;
    let mut args = std::env::args().skip(1);
    while let Some(a) = args.next() {
        match a.as_str() {
            "--no-snap" => snap = false,
            "--stream" => stream = true,
            "--only" => only = args.next().and_then(|x| x.parse().ok()),
            "--layout" => {
                let (ns, na) = verif::ccbox_layout::<Node>();
                #[cfg(feature = "clean")]
                let (ms, ma) = verif::cleaner_map_layout();
                #[cfg(not(feature = "clean"))]
                let (ms, ma) = (0, 0);
                #[cfg(feature = "auto")]
                let thr0 = verif::leaf::default_bytes_threshold();
                #[cfg(not(feature = "auto"))]
                let thr0 = 100;
                let (hs, ha) = verif::header_layout();
                println!("fin={} weak={} clean={} auto={} debug={} nsize={} nalign={} msize={} malign={} thr0={} hsize={} halign={}",
                    cfg!(feature = "fin") as u8, cfg!(feature = "weak") as u8, cfg!(feature = "clean") as u8, cfg!(feature = "auto") as u8,
                    cfg!(debug_assertions) as u8, ns, na, ms, ma, thr0, hs, ha);
                return;
            },
            _ => files.push(a),
        }
    }
    let out = std::io::stdout();
    for f in files {
        let text = std::fs::read_to_string(&f).unwrap_or_else(|_| perr(&f));
        for (idx, p) in parse_file(&text).into_iter().enumerate() {
            if let Some(o) = only { if o != idx { continue; } }
            let header = p.header.clone();
            let log = run_program(p, idx, snap, stream);
            let mut o = out.lock();
            if !stream {
                let _ = writeln!(o, "== program {} {}", idx, header);
                for l in log { let _ = writeln!(o, "{}", l); }
            }
            let _ = writeln!(o, "== end {}", idx);
            let _ = o.flush();
        }
    }
}
