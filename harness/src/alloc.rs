//! Instrumented global allocator: remembers the most recent allocations (to learn the layout a
//! managed box was allocated with), and for *registered* blocks (managed boxes and weak side
//! records) logs the deallocation in program order, checks the layout, and quarantines the
//! block (poisoned, never reused) so that a use-after-free reads poison instead of crashing.

use std::alloc::{GlobalAlloc, Layout, System};
use std::cell::Cell;

pub struct VAlloc;

#[derive(Copy, Clone)]
pub struct Reg {
    pub addr: usize,
    pub size: usize,
    pub align: usize,
    pub id: usize,
    pub side: bool,
    pub freed: bool,
}

const RING: usize = 512;
const CAP: usize = 1 << 16;

pub struct Tables {
    pub ring: [(usize, usize, usize); RING],
    pub ring_pos: usize,
    pub regs: Vec<Reg>,
    /// events produced inside the allocator, drained by the interpreter
    pub pending: Vec<String>,
}

thread_local! {
    static IN_HOOK: Cell<bool> = const { Cell::new(false) };
    static TABLES: Cell<*mut Tables> = const { Cell::new(std::ptr::null_mut()) };
}

pub const POISON: u8 = 0xDE;

/// Runs `f` with allocator hooks disabled (its own allocations are not observed).
fn unhooked<R>(f: impl FnOnce() -> R) -> R {
    let old = IN_HOOK.try_with(|h| h.replace(true)).unwrap_or(true);
    let r = f();
    let _ = IN_HOOK.try_with(|h| h.set(old));
    r
}

pub fn install() {
    unhooked(|| {
        let t = Box::new(Tables {
            ring: [(0, 0, 0); RING],
            ring_pos: 0,
            regs: Vec::with_capacity(1024),
            pending: Vec::new(),
        });
        TABLES.with(|c| c.set(Box::into_raw(t)));
    });
}

pub fn uninstall() {
    let _ = TABLES.try_with(|c| c.set(std::ptr::null_mut()));
}

fn tables() -> Option<&'static mut Tables> {
    let p = TABLES.try_with(|c| c.get()).unwrap_or(std::ptr::null_mut());
    if p.is_null() {
        None
    } else {
        Some(unsafe { &mut *p })
    }
}

/// Layout of the most recent allocation that returned `addr`.
pub fn recent_layout(addr: usize) -> Option<(usize, usize)> {
    let t = tables()?;
    for k in 0..RING {
        let (a, s, al) = t.ring[(t.ring_pos + RING - 1 - k) % RING];
        if a == addr && a != 0 {
            return Some((s, al));
        }
    }
    None
}

pub fn register(addr: usize, size: usize, align: usize, id: usize, side: bool) {
    unhooked(|| {
        if let Some(t) = tables() {
            if t.regs.len() < CAP {
                t.regs.push(Reg { addr, size, align, id, side, freed: false });
            }
        }
    });
}

pub fn find_live(addr: usize) -> Option<Reg> {
    let t = tables()?;
    t.regs.iter().rev().find(|r| r.addr == addr && !r.freed).copied()
}

pub fn find_any(addr: usize) -> Option<Reg> {
    let t = tables()?;
    t.regs.iter().rev().find(|r| r.addr == addr).copied()
}

/// Is `addr` inside a registered block that has been freed (quarantined)?
pub fn in_freed_block(addr: usize) -> bool {
    match tables() {
        Some(t) => t.regs.iter().any(|r| r.freed && addr >= r.addr && addr < r.addr + r.size.max(1)),
        None => false,
    }
}

pub fn live_boxes() -> Vec<Reg> {
    unhooked(|| match tables() {
        Some(t) => {
            let mut v: Vec<Reg> = t.regs.iter().filter(|r| !r.freed && !r.side).copied().collect();
            v.sort_by_key(|r| r.id);
            v
        },
        None => Vec::new(),
    })
}

pub fn drain_pending() -> Vec<String> {
    unhooked(|| match tables() {
        Some(t) => std::mem::take(&mut t.pending),
        None => Vec::new(),
    })
}

unsafe impl GlobalAlloc for VAlloc {
    unsafe fn alloc(&self, layout: Layout) -> *mut u8 {
        let p = System.alloc(layout);
        let hooked = !IN_HOOK.try_with(|h| h.get()).unwrap_or(true);
        if hooked {
            if let Some(t) = tables() {
                t.ring[t.ring_pos % RING] = (p as usize, layout.size(), layout.align());
                t.ring_pos = (t.ring_pos + 1) % RING;
            }
        }
        p
    }

    unsafe fn dealloc(&self, ptr: *mut u8, layout: Layout) {
        let hooked = !IN_HOOK.try_with(|h| h.get()).unwrap_or(true);
        if hooked {
            if let Some(t) = tables() {
                let addr = ptr as usize;
                if let Some(r) = t.regs.iter_mut().rev().find(|r| r.addr == addr) {
                    let (id, side, was_freed, rs, ra) = (r.id, r.side, r.freed, r.size, r.align);
                    r.freed = true;
                    unhooked(|| {
                        if was_freed {
                            t.pending.push(format!("BAD DoubleFree {}", id));
                        } else {
                            if side {
                                t.pending.push(format!("sfree {}", id));
                            } else {
                                t.pending.push(format!("free {} {} {}", id, layout.size(), layout.align()));
                            }
                            if layout.size() != rs || layout.align() != ra {
                                t.pending.push(format!("BAD LayoutMismatch {}", id));
                            }
                        }
                    });
                    if !was_freed {
                        // quarantine: poison and never hand the block back
                        std::ptr::write_bytes(ptr, POISON, rs);
                    }
                    return;
                }
            }
        }
        System.dealloc(ptr, layout)
    }
}
